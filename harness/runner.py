"""Generic check skeleton shared by all properties (DESIGN §1.2)."""
import argparse
import hashlib
import importlib
import json
import os
import random
import sys
import time
import traceback

VERIF = os.path.dirname(os.path.dirname(os.path.abspath(__file__)))
sys.path.insert(0, VERIF)
import logging  # noqa: E402
import warnings  # noqa: E402
warnings.filterwarnings("ignore")
logging.disable(logging.CRITICAL)

from harness import lean_stage as LS  # noqa: E402

TRUSTED_BASE = [
    "Lean 4.33.0 kernel; axioms allowed: propext, Classical.choice, Quot.sound (audited with #print axioms every run)",
    "tools/gen_tables.py (translator of prov constant tables into Lean literals)",
    "harness/ (generator, canonicaliser, diff) and the compiled driver, which executes the definitions the theorems are about",
]


class Failure:
    def __init__(self, kind, sig, desc, replay):
        self.kind = kind          # 'oracle' (property fails on the real code) | 'corr' (model != code)
        self.sig = sig            # signature for known-findings matching (None = unexplained)
        self.desc = desc
        self.replay = replay      # JSON-serialisable case

    def key(self):
        return (self.kind, self.sig, self.desc[:80])


class Ctx:
    def __init__(self, prop, tier, seed):
        self.prop = prop
        self.tier = tier
        self.seed = seed
        self.rng = random.Random(seed)
        self.evaluations = 0
        self.distinct = set()
        self.samples = []
        self.dist = {}
        self.notes = []
        self.model_ops = 0
        self.scale = 1.0

    def count(self, key, n=1):
        self.dist[key] = self.dist.get(key, 0) + n

    def nontrivial(self, obj):
        self.distinct.add(hashlib.sha1(json.dumps(obj, sort_keys=True, default=str).encode()).hexdigest())

    def sample(self, obj, limit=3):
        if len(self.samples) < limit:
            self.samples.append(obj)

    def n(self, quick, thorough):
        base = quick if self.tier == "quick" else thorough
        return max(1, int(base * self.scale))


def load_findings(prop):
    p = os.path.join(VERIF, "known_findings.json")
    if not os.path.exists(p):
        return []
    return [f for f in json.load(open(p)) if f.get("property") == prop]


def write_replay(prop, seed, idx, payload):
    d = os.path.join(VERIF, "out", "replays")
    os.makedirs(d, exist_ok=True)
    path = os.path.join(d, "%s-seed%d-%d.json" % (prop, seed, idx))
    with open(path, "w") as f:
        json.dump(payload, f, indent=1, ensure_ascii=False, default=str)
    return path


def write_evidence(prop, ev):
    d = os.path.join(VERIF, "evidence")
    os.makedirs(d, exist_ok=True)
    tmp = os.path.join(d, prop + ".json.tmp")
    with open(tmp, "w") as f:
        json.dump(ev, f, indent=1, ensure_ascii=False, default=str)
    os.replace(tmp, os.path.join(d, prop + ".json"))


def main(argv=None):
    ap = argparse.ArgumentParser()
    ap.add_argument("prop")
    ap.add_argument("--tier", default=os.environ.get("VERIF_TIER", "quick"), choices=["quick", "thorough"])
    ap.add_argument("--replay", default=None)
    ap.add_argument("--seed", type=int, default=None)
    ap.add_argument("--no-lean", action="store_true", help="skip the Lean stage (development only)")
    args = ap.parse_args(argv)
    prop = args.prop
    seed = args.seed if args.seed is not None else int(os.environ.get("VERIF_SEED", "0") or 0)
    t0 = time.time()
    mod = importlib.import_module("harness.props." + prop.lower())
    ctx = Ctx(prop, args.tier, seed)

    if args.replay:
        data = json.load(open(args.replay))
        fails = mod.replay(ctx, data.get("case", data))
        for f in fails:
            print("REPLAY-FAIL %s: %s" % (f.kind, f.desc))
        print("replay: %d failure(s)" % len(fails))
        return 1 if fails else 0

    # ---- 0. has the library source changed since the model was last aligned with it?  Then the model may no longer mirror the
    #         code: correspondence and search run with four times as many cases (quick tier). The verdict logic does not change.
    try:
        from . import srcprint
        changed_src = srcprint.changed_since_baseline()
    except Exception:  # noqa
        changed_src = ["<fingerprints unavailable>"]
    if changed_src:
        ctx.notes.append("library source differs from fingerprints.json in: " + ", ".join(changed_src[:12]))
        ctx.count("source-functions-changed", len(changed_src))
        if args.tier == "quick":
            ctx.scale = 4.0

    # ---- 1-2. Lean stage
    if args.no_lean:
        lean = {"ok": True, "build_ok": True, "theorems": [], "axioms": {}, "bad_axioms": {}, "forbidden": [],
                "build_log": "skipped", "wall_s": 0}
    else:
        lean = LS.lean_stage(prop, clean=(args.tier == "thorough"), leanchecker=(args.tier == "thorough"))
    lean_problem = None
    if not lean["build_ok"]:
        lean_problem = "lake build failed (a proof obligation or the model no longer checks):\n" + lean["build_log"][-2500:]
    elif lean["bad_axioms"]:
        lean_problem = "axiom audit failed: %s" % json.dumps(lean["bad_axioms"])
    elif lean["forbidden"]:
        lean_problem = "forbidden tokens in Lean sources: %s" % lean["forbidden"][:5]
    elif not lean["ok"]:
        lean_problem = "leanchecker failed: %s" % lean.get("leanchecker_log", "")[-800:]

    violations = []      # (Failure)
    known_hits = {}
    infra_error = None
    findings = load_findings(prop)
    known_sigs = {f["signature"]: f for f in findings if f.get("status") == "known"}

    def classify(fails):
        for f in fails:
            if f.kind == "oracle" and f.sig in known_sigs:
                known_hits.setdefault(f.sig, []).append(f)
            else:
                violations.append(f)

    try:
        if lean["build_ok"] or args.no_lean:
            # ---- 3. known findings / fixed entries replay
            for f in findings:
                if "replay" not in f:
                    continue
                rp = os.path.join(VERIF, f["replay"])
                case = json.load(open(rp))
                try:
                    fails = mod.replay(Ctx(prop, args.tier, seed), case.get("case", case))
                except Exception:  # noqa: the recorded history cannot be run on this tree (an earlier step of it now fails):
                    # that is neither a reproduction nor a pass; the search below runs regardless and reports what it finds
                    ctx.notes.append("replay of finding %s could not be executed on this tree: %s" % (
                        f.get("signature"), traceback.format_exc().strip().splitlines()[-1][:200]))
                    ctx.count("finding-replay-not-executable")
                    continue
                still = [x for x in fails if x.kind == "oracle"]
                if f.get("status") == "known":
                    if still:
                        known_hits.setdefault(f["signature"], []).append(still[0])
                    else:
                        ctx.notes.append("known finding %s no longer reproduces" % f["signature"])
                    violations.extend(x for x in fails if x.kind != "oracle")
                else:  # fixed: must pass
                    for x in fails:
                        x.desc = "regression of fixed finding (%s): %s" % (f.get("commit", "?"), x.desc)
                        x.sig = None
                        violations.append(x)
            # ---- 4-5. correspondence + property oracle
            classify(mod.run(ctx))
        else:
            # model does not build: the driver may be stale or absent; go straight to the search on the real code
            ctx.notes.append("Lean build broken: correspondence skipped, oracle-only search on the implementation")
            if hasattr(mod, "oracle_only"):
                classify(mod.oracle_only(ctx))
    except Exception:  # infrastructure problem, never a VIOLATION
        infra_error = traceback.format_exc()

    # ---- 6. failing-input search when a proof / correspondence broke without a concrete property failure
    oracle_viol = [v for v in violations if v.kind == "oracle"]
    corr_viol = [v for v in violations if v.kind == "corr"]
    if infra_error is None and (lean_problem or corr_viol) and not oracle_viol and hasattr(mod, "oracle_only"):
        sctx = Ctx(prop, args.tier, seed + 7919)
        sctx.scale = 4.0
        try:
            more = mod.oracle_only(sctx)
        except Exception:
            more = []
            ctx.notes.append("search crashed: " + traceback.format_exc()[-600:])
        for f in more:
            if f.kind == "oracle" and f.sig not in known_sigs:
                oracle_viol.append(f)
        ctx.evaluations += sctx.evaluations

    out_lines = []
    exit_code = 0
    import glob
    for old in glob.glob(os.path.join(VERIF, "out", "replays", "%s-seed%d-*.json" % (prop, seed))):
        os.remove(old)
    for sig, hits in known_hits.items():
        out_lines.append("KNOWN-FINDING: property=%s %s (%d case(s) this run; signature %s)" % (
            prop, known_sigs[sig]["what"], len(hits), sig))
    if infra_error:
        print(infra_error)
        print("INFRASTRUCTURE ERROR (not a violation)")
        exit_code = 2
    elif oracle_viol:
        seen = set()
        idx = 0
        for v in oracle_viol:
            if v.key() in seen:
                continue
            seen.add(v.key())
            path = write_replay(prop, seed, idx, {"property": prop, "kind": v.kind, "what": v.desc, "signature": v.sig,
                                                  "case": v.replay,
                                                  "broken_obligation": lean_problem[:1500] if lean_problem else None})
            out_lines.append("VIOLATION property=%s replay=%s" % (prop, path))
            idx += 1
            if idx >= 5:
                break
        exit_code = 1
    elif lean_problem or corr_viol:
        what = lean_problem or ("correspondence between the Lean model and the implementation no longer checks: " + corr_viol[0].desc)
        path = write_replay(prop, seed, 0, {"property": prop, "kind": "no-failing-input-found",
                                            "what": what[:4000],
                                            "theorems": lean.get("theorems", []),
                                            "case": corr_viol[0].replay if corr_viol else None})
        out_lines.append("VIOLATION property=%s replay=%s no-failing-input-found" % (prop, path))
        exit_code = 1

    # ---- evidence
    n_thm = len(lean.get("theorems", []))
    discharged = sum(1 for t in lean.get("theorems", []) if t in lean.get("axioms", {}) and t not in lean.get("bad_axioms", {}))
    meta = getattr(mod, "META", {})
    ev = {
        "property_id": prop,
        "tier": args.tier,
        "seed": seed,
        "level": meta.get("level", "proof"),
        "coverage": {
            "obligations": max(n_thm, 1),
            "discharged": discharged if lean["build_ok"] else 0,
            "checker_cmd": "cd lean && lake build Prov.Props.%s Prov.Props.Tables && lake env lean <generated #print axioms file>" % prop,
            "trusted_base": TRUSTED_BASE + meta.get("trusted_base", []),
            "theorems": lean.get("theorems", []),
            "axioms_used": sorted({a for t in lean.get("axioms", {}).values() for a in t}),
            "evaluations": ctx.evaluations,
            "distinct_nontrivial": len(ctx.distinct),
            "rule": meta.get("rule", ""),
            "samples": ctx.samples or [{"note": "no case generated (build broken or infrastructure error)"}],
            "model_ops_compared": ctx.model_ops,
            "distribution": ctx.dist,
            "known_findings_hit": {k: len(v) for k, v in known_hits.items()},
            "admissible_divergences": dict(__import__("harness.world", fromlist=["DIVERGENCES"]).DIVERGENCES),
            "explanation": meta.get("explanation", ""),
            "notes": ctx.notes,
            "lean_wall_s": lean.get("wall_s"),
        },
        "assumptions": meta.get("assumptions", []),
        "wall_s": round(time.time() - t0, 2),
        "violations": len([l for l in out_lines if l.startswith("VIOLATION")]),
    }
    if args.no_lean:
        # development run: never overwrite the evidence of a full run
        d = os.path.join(VERIF, "out", "evidence-dev")
        os.makedirs(d, exist_ok=True)
        with open(os.path.join(d, prop + ".json"), "w") as f:
            json.dump(ev, f, indent=1, ensure_ascii=False, default=str)
    else:
        write_evidence(prop, ev)
    for l in out_lines:
        print(l)
    print("%s %s seed=%d: %d theorems (%d discharged), %d cases, %d distinct non-trivial, %d model ops compared, %.1fs -> exit %d" % (
        prop, args.tier, seed, n_thm, ev["coverage"]["discharged"], ctx.evaluations, len(ctx.distinct), ctx.model_ops,
        ev["wall_s"], exit_code))
    return exit_code


if __name__ == "__main__":
    sys.exit(main())

"""Protocol encoding (real prov objects -> op-line JSON) and canonical observations.

Only the public API of prov is used to observe objects, so that renaming a private field is
not mistaken for a behavioural change.
"""
import datetime
import json

from prov.identifier import Identifier, QualifiedName, Namespace
from prov.model import Literal, ProvRecord, ProvBundle, ProvDocument


def enc_qn3(q):
    return [q.namespace.prefix or "", q.namespace.uri, q.localpart]


def enc_name(x):
    """argument of valid_qualified_name / identifiers / attribute names"""
    if x is None:
        return None
    if isinstance(x, QualifiedName):
        return {"q": enc_qn3(x)}
    if isinstance(x, Identifier):
        return {"s": x.uri}
    if isinstance(x, str):
        return {"s": x}
    raise TypeError("unsupported name argument %r" % (x,))


def enc_float(x):
    n, d = x.as_integer_ratio()
    return {"k": "float", "r": repr(x), "n": str(n), "d": str(d), "g": "%g" % x}


def enc_dt(t):
    tz = None
    if t.tzinfo is not None:
        off = t.utcoffset()
        secs = off.days * 86400 + off.seconds
        assert secs % 60 == 0 and off.microseconds == 0
        tz = secs // 60
    return [t.year, t.month, t.day, t.hour, t.minute, t.second, t.microsecond, tz]


def enc_value(v):
    if isinstance(v, bool):
        return {"k": "bool", "v": v}
    if isinstance(v, int):
        return {"k": "int", "v": str(v)}
    if isinstance(v, float):
        return enc_float(v)
    if isinstance(v, str):
        return {"k": "str", "v": v}
    if isinstance(v, datetime.datetime):
        return {"k": "dt", "v": enc_dt(v)}
    if isinstance(v, QualifiedName):
        return {"k": "qn", "v": enc_qn3(v)}
    if isinstance(v, Identifier):
        return {"k": "uri", "v": v.uri}
    if isinstance(v, Literal):
        t = v.datatype
        assert t is None or isinstance(t, QualifiedName)
        return {"k": "lit", "v": v.value, "t": enc_qn3(t) if t is not None else None, "l": v.langtag}
    raise TypeError("unsupported value %r" % (v,))


def float_hint(v):
    """float(lexical form) for Literal(v, xsd:double), computed outside the library"""
    if isinstance(v, Literal) and v.datatype is not None and v.langtag is None \
            and v.datatype.uri == "http://www.w3.org/2001/XMLSchema#double":
        try:
            x = float(v.value)
        except ValueError:
            return None
        if x != x or x in (float("inf"), float("-inf")):
            return None
        return enc_float(x)
    return None


# ---------------------------------------------------------------- canonical observations

def canon_q(q):
    if q is None:
        return None
    return [q.uri, str(q)]


def canon_value(v):
    if isinstance(v, bool):
        return ["bool", v]
    if isinstance(v, int):
        return ["int", str(v)]
    if isinstance(v, float):
        return ["float", repr(v)]
    if isinstance(v, str):
        return ["str", v]
    if isinstance(v, datetime.datetime):
        return ["dt", v.isoformat()]
    if isinstance(v, QualifiedName):
        return ["qn", v.uri, str(v)]
    if isinstance(v, Identifier):
        return ["uri", v.uri]
    if isinstance(v, Literal):
        t = v.datatype
        return ["lit", v.value, [t.uri, str(t)] if t is not None else None, v.langtag]
    return ["other", repr(type(v))]


def skey(x):
    return json.dumps(x, sort_keys=True, ensure_ascii=True)


def canon_record(r):
    attrs = [[a.uri, str(a), canon_value(v)] for (a, v) in r.attributes]
    attrs.sort(key=skey)
    return {"kind": r.get_type().localpart, "id": canon_q(r.identifier), "attrs": attrs}


def canon_cont(c):
    out = {
        "doc": c.is_document(),
        "id": canon_q(c.identifier),
        "ns": [[n.prefix, n.uri] for n in c.get_registered_namespaces()],
        "default": c.default_ns_uri,
        "records": [canon_record(r) for r in c.records],
        "bundles": [],
    }
    if c.is_document():
        out["bundles"] = [[canon_q(b.identifier), canon_cont(b)] for b in c.bundles]
    return out


def normalize_model_obs(o):
    """sort what the model emits unsorted (attribute lists)"""
    if isinstance(o, dict) and "records" in o:
        for r in o["records"]:
            r["attrs"].sort(key=skey)
        for b in o.get("bundles", []):
            normalize_model_obs(b[1])
    elif isinstance(o, dict) and "attrs" in o:
        o["attrs"].sort(key=skey)
    return o


# ---------------------------------------------------------------- strict content (URI level)

def strict_value(v):
    c = canon_value(v)
    if c[0] == "qn":
        return ["qn", c[1]]
    if c[0] == "lit":
        return ["lit", c[1], c[2][0] if c[2] else None, c[3]]
    return c


def strict_record(r):
    attrs = sorted(([a.uri, strict_value(v)] for (a, v) in r.attributes), key=skey)
    return {"kind": r.get_type().localpart, "id": r.identifier.uri if r.identifier else None, "attrs": attrs}


def strict_bag(c):
    """multiset of strict records of one container, as a sorted list of strings"""
    return sorted(skey(strict_record(r)) for r in c.records)


def strict_doc(d):
    out = {"": strict_bag(d)}
    if d.is_document():
        for b in d.bundles:
            out[b.identifier.uri if b.identifier is not None else "<None>"] = strict_bag(b)
    return out


def uri_projection_full(o):
    """URI-level view incl. declarations (used by the non-interference oracles)"""
    from .world import uri_projection
    return uri_projection(o)

"""rdflib graphs <-> the JSON transport of the Lean RDF model: terms, canonical quads (blank nodes named by what
they say), the iteration orders the real reader will see, and rdflib's own literal conversions as hints."""
import hashlib
import json

import dateutil.parser
from rdflib.term import URIRef, BNode
from rdflib.term import Literal as RDFLiteral
from rdflib.namespace import RDF, XSD

from . import proto


def term(t):
    if isinstance(t, URIRef):
        return {"t": "iri", "u": str(t)}
    if isinstance(t, BNode):
        return {"t": "b", "l": str(t)}
    if isinstance(t, RDFLiteral):
        return {"t": "lit", "x": str(t), "d": str(t.datatype) if t.datatype is not None else None, "g": t.language}
    raise TypeError("not an RDF term: %r" % (t,))


def tkey(t):
    return json.dumps(t, sort_keys=True, ensure_ascii=False)


def canon_graph(triples):
    """triples: list of [s, p, o] JSON terms (a set); blank nodes are renamed by the sorted description of the triples
    they occur in, so that two graphs equal up to blank node names have equal canonical lists"""
    seen = set()
    uniq = []
    for t in triples:
        k = tkey(t)
        if k not in seen:
            seen.add(k)
            uniq.append(t)

    def blank(x):
        return x["t"] == "b"

    desc = {}
    for s, p, o in uniq:
        if blank(s):
            desc.setdefault(s["l"], []).append("out|%s|%s" % (tkey(p), "_" if blank(o) else tkey(o)))
        if blank(o):
            desc.setdefault(o["l"], []).append("in|%s|%s" % ("_" if blank(s) else tkey(s), tkey(p)))
    name = {l: "c" + hashlib.sha1("\n".join(sorted(d)).encode("utf-8")).hexdigest()[:14] for l, d in desc.items()}

    def ren(x):
        return {"t": "b", "l": name[x["l"]]} if blank(x) else x
    return sorted(([ren(s), ren(p), ren(o)] for s, p, o in uniq), key=tkey)


def canon_quads(graphs):
    """graphs: list of [graph id or None, triples] -> sorted list of [id, canonical triples], empty graphs dropped"""
    out = []
    for gid, triples in graphs:
        if triples:
            out.append([gid, canon_graph(triples)])
    return sorted(out, key=lambda g: (g[0] is not None, g[0] or ""))


def quads_of(container):
    """[graph id or None, triples] per context of a ConjunctiveGraph as the writer built it"""
    default_id = container.default_context.identifier
    out = []
    for ctx in container.contexts():
        gid = None if ctx.identifier == default_id or isinstance(ctx.identifier, BNode) else str(ctx.identifier)
        out.append([gid, [[term(s), term(p), term(o)] for s, p, o in ctx]])
    return out


def lit_hint(l):
    """what rdflib itself makes of a literal (the part of decode_rdf_representation that is not prov's)"""
    value = l.value if l.value is not None else l
    h = {"term": term(l), "pv": str(value)}
    if l.datatype == XSD["double"] and isinstance(value, float) and value == value and value not in (float("inf"), float("-inf")):
        h["flt"] = proto.enc_float(value)
    if l.datatype == XSD["dateTime"]:
        try:
            h["pdt"] = proto.enc_dt(dateutil.parser.parse(l))
        except Exception:  # noqa
            pass
    return h


def reader_view(container):
    """what decode_document will iterate over, in the order it will see it"""
    graphs = []
    hints = {}
    for ctx in container.contexts():
        gid = None if isinstance(ctx.identifier, BNode) else str(ctx.identifier)
        types = [[term(s), term(p), term(o)] for s, p, o in ctx.triples((None, RDF.type, None))]
        allt = []
        for s, p, o in ctx:
            allt.append([term(s), term(p), term(o)])
            for x in (s, o):
                if isinstance(x, RDFLiteral):
                    hints[tkey(term(x))] = lit_hint(x)
        # the reader also issues pattern queries (subject, prov:qualifiedDelegation / qualifiedAssociation / asInBundle, ?o) and
        # keeps the last answer: their order is the store's index order, not the iteration order of the context
        pat = []
        for pl in ("qualifiedDelegation", "qualifiedAssociation", "asInBundle"):
            pu = URIRef("http://www.w3.org/ns/prov#" + pl)
            subs = []
            for s in ctx.subjects(pu, None):
                if isinstance(s, URIRef) and s not in subs:
                    subs.append(s)
            for s in subs:
                for s2, p2, o2 in ctx.triples((s, pu, None)):
                    pat.append([term(s2), term(p2), term(o2)])
        graphs.append({"id": gid, "types": types, "all": allt, "pat": pat})
    ns = [[p, str(u)] for p, u in container.namespaces()]
    return {"ns": ns, "graphs": graphs, "hints": list(hints.values())}

"""Type-directed random generation of names, values, records and documents, all choices drawn
from one random.Random so that a case replays exactly from its seed."""
import datetime
import random

from prov.identifier import Identifier, QualifiedName, Namespace
from prov.model import Literal, PROV_REC_CLS
from prov.constants import (PROV, XSD, PROV_ATTRIBUTE_QNAMES, PROV_ATTRIBUTE_LITERALS, PROV_TYPE, PROV_LABEL,
                            PROV_VALUE, PROV_LOCATION, PROV_ROLE, XSD_INT, XSD_LONG, XSD_DOUBLE, XSD_BOOLEAN,
                            XSD_STRING, XSD_ANYURI, XSD_DATETIME)

PREFIXES = ["ex", "ex_1", "dn", "foo", "ex2", "b", "prov", "xsd", "xs", "rdf"]
URIS = ["http://a/", "http://a/b/", "http://other/", "urn:x:", "http://a/#", "http://www.w3.org/ns/prov#",
        "http://example.org/ns/"]
# the built-in namespaces without their final '#': other namespaces, whatever they look like. Used for namespace histories (C03)
# only: in PROV-XML the XML Schema namespace *is* declared without '#', so a document that also uses that URI as a namespace of
# its own is not XML-expressible (C02/C10 do not cover it; see DESIGN A.6)
HASHLESS_BUILTINS = ["http://www.w3.org/2001/XMLSchema", "http://www.w3.org/ns/prov"]
LOCALS = ["x", "y", "e1", "e2", "a1", "ag", "a/b", "a.b", "x-1", "u_v", "b1", "Z9", "run:42", "urn:isbn:0451", "report%20v2"]   # (a local part may itself contain colons)
KINDS = [k.localpart for k in PROV_REC_CLS]
ELEMENT_KINDS = ["Entity", "Activity", "Agent"]
RELATION_KINDS = [k for k in KINDS if k not in ELEMENT_KINDS]
FORMALS = {k.localpart: [a.localpart for a in cls.FORMAL_ATTRIBUTES] for k, cls in PROV_REC_CLS.items()}
REF_ATTRS = {a.localpart for a in PROV_ATTRIBUTE_QNAMES}
TIME_ATTRS = {a.localpart for a in PROV_ATTRIBUTE_LITERALS}
STRINGS = ["", "a", "hello world", 'say "hi"', "line1\nline2", "tab\there", "café 世界", "a<b & c>d",
           "back\\slash", "x" * 40, "'single'", "ümlaut", "5", "true",
           'multi\nline ending in a quote"', 'has """ inside\nsecond line', "carriage\rreturn", '"', '""', "\\",
           "ends with backslash\\", '\\"', "prov:looks-like-a-name", " leading and trailing ",
           # not in Unicode normal form C (combining marks, a compatibility character, conjoining jamo): kept as given
           "Cafe\u0301 de\u0301compose\u0301", "\u212bngstro\u0308m", "\u1100\u1161\u11a8", "\tpadded\n ",
           # line and paragraph separators other than LF/CR (str.splitlines() breaks at them, XML 1.0 and JSON do not)
           "line\u2028separator, paragraph\u2029separator, next\u0085line",
           # legal characters that str.isprintable() calls unprintable (no-break and ideographic space, joiners, soft hyphen, a
           # bidi mark, a private-use character): part of the value like any other
           "no\u00a0break \u3000ideographic", "\u0646\u0645\u06cc\u200c\u062e\u0648\u0627\u0647\u0645 zw\u200dj", "soft\u00adhyphen \u200emark \ue000private"]
LANGS = ["en", "fr", "en-GB", "x-klingon", "en-u-ca-gregory"]   # (private-use and extension subtags: one-letter singletons)
FOREIGN_TYPES = [("ex", "http://a/", "mytype"), ("xsd", XSD.uri, "decimal"), ("xsd", XSD.uri, "gYear"),
                 ("xsd", XSD.uri, "short"), ("foo", "http://other/", "T"),
                 # one spelling, another URI: what 'ex:mytype' / 'foo:T' means depends on who declares the prefix
                 ("ex", "http://example.org/", "mytype"), ("ex", "http://other/", "mytype"), ("foo", "http://foo.org/ns#", "T")]


class Gen:
    def __init__(self, seed, extra_locals=()):
        self.rng = random.Random(seed)
        self.locals = LOCALS + list(extra_locals)

    # -- primitives
    def choice(self, xs):
        return self.rng.choice(xs)

    def chance(self, p):
        return self.rng.random() < p

    def namespace(self, allow_empty_prefix=True):
        r = self.rng
        p = r.choice(PREFIXES + ([""] if allow_empty_prefix else []))
        u = r.choice(URIS)
        return Namespace(p, u)

    def local(self):
        return self.rng.choice(self.locals)

    def qname(self, nss=None):
        """a QualifiedName object; with `nss` mostly drawn from the given namespaces"""
        if nss and self.chance(0.8):
            ns = self.rng.choice(list(nss))
        else:
            ns = self.namespace()
        return QualifiedName(ns, self.local())

    def dt(self):
        r = self.rng
        tz = None
        k = r.random()
        if k < 0.3:
            tz = datetime.timezone.utc
        elif k < 0.55:
            tz = datetime.timezone(datetime.timedelta(minutes=r.choice([60, -300, 330, 765, -90])))
        us = r.choice([0, 0, 0, 1, 500000, 123456])
        return datetime.datetime(r.choice([1, 999, 1970, 2012, 2024, 9999]), r.randint(1, 12), r.randint(1, 28),
                                 r.randint(0, 23), r.randint(0, 59), r.randint(0, 59), us, tzinfo=tz)

    def int_(self):
        r = self.rng
        return r.choice([0, 1, -1, 2, 42, -17, 2 ** 31, -2 ** 63, 10 ** 30, 2 ** 53 + 1, 2 ** 63 - 1, r.randint(-1000, 1000)])

    def float_(self):
        r = self.rng
        return r.choice([0.0, 1.0, -1.0, 0.5, 0.1, 0.1234567, 1e100, 1e-7, 3.141592653589793, -2.5e-5,
                         123456789.125, r.uniform(-1000, 1000), float(r.randint(-5, 5))])

    def string(self):
        return self.rng.choice(STRINGS)

    def literal(self, nss=None):
        r = self.rng
        k = r.random()
        if k < 0.25:
            return Literal(self.string(), langtag=r.choice(LANGS))
        if k < 0.55:
            p, u, l = r.choice(FOREIGN_TYPES)
            return Literal(self.string(), QualifiedName(Namespace(p, u), l))
        # native datatype with valid or invalid lexical form
        t = r.choice([XSD_INT, XSD_LONG, XSD_DOUBLE, XSD_BOOLEAN, XSD_STRING, XSD_ANYURI, XSD_DATETIME])
        valid = not self.chance(0.1)
        if t in (XSD_INT, XSD_LONG):
            lex = str(self.int_()) if valid else r.choice(["abc", "1.5", ""])
        elif t == XSD_DOUBLE:
            lex = repr(self.float_()) if valid else r.choice(["abc", "", "1,5"])
        elif t == XSD_BOOLEAN:
            lex = r.choice(["true", "false", "1", "0", "True", "FALSE"]) if valid else r.choice(["yes", "", "2"])
        elif t == XSD_DATETIME:
            lex = self.dt().isoformat() if valid else r.choice(["not a time", ""])
        elif t == XSD_ANYURI:
            lex = r.choice(URIS) + self.local()
        else:
            lex = self.string()
        return Literal(lex, t)

    def value(self, nss=None, kinds=None):
        """an attribute value of any supported kind"""
        r = self.rng
        k = r.choice(kinds or ["str", "str", "int", "float", "bool", "dt", "uri", "qn", "qn", "lit", "lit"])
        if k == "str":
            return self.string()
        if k == "int":
            return self.int_()
        if k == "float":
            return self.float_()
        if k == "bool":
            return r.choice([True, False])
        if k == "dt":
            return self.dt()
        if k == "uri":
            if self.chance(0.15):
                # URIs that already carry percent-escapes, a query, or characters outside ASCII: kept as given
                return Identifier(r.choice(["http://h/with%20space", "http://h/q?x=%3A%2F&y=1", "http://h/ünï/é", "http://h/100%25"]))
            return Identifier(r.choice(URIS) + self.local())
        if k == "qn":
            return self.qname(nss)
        return self.literal(nss)

"""XML infoset trees: dump of an lxml tree for the Lean driver, and an order-free canonical form."""
import io

from lxml import etree

from . import proto


def split_tag(tag):
    if isinstance(tag, str) and tag.startswith("{"):
        u, l = tag[1:].split("}", 1)
        return u, l
    return "", tag


def dump(el):
    """lxml element -> {"u","l","p","ns","a","t","c"} (comments and processing instructions dropped)"""
    u, l = split_tag(el.tag)
    return {
        "u": u, "l": l, "p": el.prefix,
        "ns": [[k, v] for k, v in el.nsmap.items()],
        "a": [list(split_tag(k)) + [v] for k, v in el.attrib.items()],
        "t": el.text if (el.text is not None and (len(el) == 0)) else None,
        "c": [dump(c) for c in el if isinstance(c.tag, str)],
    }


def parse(text):
    if isinstance(text, str):
        text = text.encode("utf-8")
    return etree.parse(io.BytesIO(text)).getroot()


PROVU = "http://www.w3.org/ns/prov#"
XSIU = "http://www.w3.org/2001/XMLSchema-instance"
SUBTYPE_LABELS = {"wasRevisionOf": ("wasDerivedFrom", "Revision"), "wasQuotedFrom": ("wasDerivedFrom", "Quotation"),
                  "hadPrimarySource": ("wasDerivedFrom", "PrimarySource"), "softwareAgent": ("agent", "SoftwareAgent"),
                  "person": ("agent", "Person"), "organization": ("agent", "Organization"), "plan": ("entity", "Plan"),
                  "collection": ("entity", "Collection"), "emptyCollection": ("entity", "EmptyCollection"),
                  "bundle": ("entity", "Bundle")}


def expand_subtype(n):
    """which of several subtype values names the element is decided by Python's set iteration order: for comparison
    a subtype element is rewritten as its base element plus the prov:type child it stands for"""
    if n["u"] == PROVU and n["l"] in SUBTYPE_LABELS:
        base, t = SUBTYPE_LABELS[n["l"]]
        extra = {"u": PROVU, "l": "type", "p": "prov", "ns": [], "a": [[XSIU, "type", "xsd:QName"]], "t": "prov:" + t, "c": []}
        return dict(n, l=base, c=list(n["c"]) + [extra])
    return n


def canon(n, top=True):
    n = expand_subtype(n)
    """order-free canonical form: children and attributes as sorted multisets, empty text = no text,
    namespace maps as sets (prefix bindings that the content does not use still count: they are declarations)"""
    return {
        "n": [n["u"], n["l"]],
        "ns": sorted(([k if k is not None else "", v] for k, v in n["ns"]), key=proto.skey) if top else None,
        "a": sorted(([a[0], a[1], a[2]] for a in n["a"]), key=proto.skey),
        "t": n["t"] or "",
        "c": sorted((canon(c, False) for c in n["c"]), key=proto.skey),
    }


def canon_with_bundle_ns(n):
    """canonical form where the root and each bundleContent child keep their namespace maps"""
    out = canon(n, True)
    kids = []
    for c in n["c"]:
        cc = canon(c, c["l"] == "bundleContent")
        kids.append(cc)
    out["c"] = sorted(kids, key=proto.skey)
    return out


def double_hints(n, out=None):
    """A-LEX: float value of every element text / attribute that is typed xsd:double"""
    if out is None:
        out = {}
    for a in n["a"]:
        if a[1] == "type" and a[2].endswith(":double") and n["t"] is not None:
            try:
                x = float(n["t"])
                if x == x and x not in (float("inf"), float("-inf")):
                    out[n["t"]] = proto.enc_float(x)
            except ValueError:
                pass
    for c in n["c"]:
        double_hints(c, out)
    return out

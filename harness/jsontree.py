"""JSON trees: tagged (order-preserving) encoding for the Lean driver and an order-free canonical form."""
import json

from . import proto


def loads_ordered(text):
    return json.loads(text, object_pairs_hook=lambda pairs: ("__obj__", pairs))


def to_tagged(t):
    """ordered python tree (from loads_ordered) -> driver encoding"""
    if t is None or isinstance(t, (bool, str)):
        return t
    if isinstance(t, int):
        return {"i": str(t)}
    if isinstance(t, float):
        return {"f": proto.enc_float(t)}
    if isinstance(t, list):
        return {"a": [to_tagged(x) for x in t]}
    if isinstance(t, tuple) and t[0] == "__obj__":
        keys = [k for (k, _v) in t[1]]
        out = []
        for (k, v) in t[1]:
            if k == "$" and isinstance(v, str) and "type" in keys:
                # A-LEX: the float a lexical form denotes is computed here, not in Lean
                try:
                    x = float(v)
                    if x == x and x not in (float("inf"), float("-inf")):
                        out.append([k, {"s": v, "f": proto.enc_float(x)}])
                        continue
                except ValueError:
                    pass
            out.append([k, to_tagged(v)])
        return {"o": out}
    raise TypeError(type(t))


def canon_ordered(t):
    """order-free canonical form of an ordered python tree"""
    if t is None or isinstance(t, (bool, str)):
        return t
    if isinstance(t, int):
        return {"i": str(t)}
    if isinstance(t, float):
        return {"f": repr(t)}
    if isinstance(t, list):
        return {"a": sorted((canon_ordered(x) for x in t), key=proto.skey)}
    if isinstance(t, tuple) and t[0] == "__obj__":
        return {"o": {k: canon_ordered(v) for (k, v) in t[1]}}
    raise TypeError(type(t))


def canon_tagged(t):
    """order-free canonical form of the driver's tagged tree"""
    if t is None or isinstance(t, (bool, str)):
        return t
    if "i" in t:
        return {"i": t["i"]}
    if "f" in t:
        return {"f": t["f"]}
    if "a" in t:
        return {"a": sorted((canon_tagged(x) for x in t["a"]), key=proto.skey)}
    if "o" in t:
        return {"o": {k: canon_tagged(v) for (k, v) in t["o"]}}
    raise TypeError(repr(t))


def from_plain(x):
    """plain python JSON value (dict/list/...) -> ordered python tree"""
    if isinstance(x, dict):
        return ("__obj__", [(k, from_plain(v)) for k, v in x.items()])
    if isinstance(x, list):
        return [from_plain(v) for v in x]
    return x


def to_plain(t):
    if isinstance(t, tuple) and t[0] == "__obj__":
        return {k: to_plain(v) for (k, v) in t[1]}
    if isinstance(t, list):
        return [to_plain(v) for v in t]
    return t

"""Specification-driven generator of PROV-JSON texts (NOT produced by the library's writer) and
single-point mutations of the shipped corpus files."""
import copy
import glob
import json
import os

CORPUS = "/repo/src/prov/tests/json"

KIND_FORMALS = {
    "entity": [], "agent": [], "activity": ["prov:startTime", "prov:endTime"],
    "wasGeneratedBy": ["prov:entity", "prov:activity", "prov:time"],
    "used": ["prov:activity", "prov:entity", "prov:time"],
    "wasInformedBy": ["prov:informed", "prov:informant"],
    "wasStartedBy": ["prov:activity", "prov:trigger", "prov:starter", "prov:time"],
    "wasEndedBy": ["prov:activity", "prov:trigger", "prov:ender", "prov:time"],
    "wasInvalidatedBy": ["prov:entity", "prov:activity", "prov:time"],
    "wasDerivedFrom": ["prov:generatedEntity", "prov:usedEntity", "prov:activity", "prov:generation", "prov:usage"],
    "wasAttributedTo": ["prov:entity", "prov:agent"],
    "wasAssociatedWith": ["prov:activity", "prov:agent", "prov:plan"],
    "actedOnBehalfOf": ["prov:delegate", "prov:responsible", "prov:activity"],
    "wasInfluencedBy": ["prov:influencee", "prov:influencer"],
    "specializationOf": ["prov:specificEntity", "prov:generalEntity"],
    "alternateOf": ["prov:alternate1", "prov:alternate2"],
    "mentionOf": ["prov:specificEntity", "prov:generalEntity", "prov:bundle"],
    "hadMember": ["prov:collection", "prov:entity"],
}
ELEMENTS = ("entity", "agent", "activity")
TIMES = ("prov:time", "prov:startTime", "prov:endTime")


class ForeignGen:
    def __init__(self, g):
        self.g = g
        self.r = g.rng

    def time(self):
        t = self.g.dt()
        if t.year < 1000:
            t = t.replace(year=2000 + t.year % 20)
        return t.isoformat()

    def name(self, prefixes, default):
        r = self.r
        loc = r.choice(["e1", "e2", "a1", "ag1", "x", "y.z", "b/c", "n-1", "run:4", "rep:v", "rep%20v"]) + str(r.randint(0, 3))
        if default and r.random() < 0.2:
            return loc
        if r.random() < 0.04:
            return r.choice(prefixes) + ":"        # a qualified name with an empty local part: the namespace URI itself
        return r.choice(prefixes) + ":" + loc

    def value(self, prefixes, default):
        """one attribute value in a spelling chosen at random (every literal spelling of the specification)"""
        r = self.r
        k = r.random()
        if k < 0.15:
            return r.choice(["plain", "", "with \"quotes\"", "multi\nline", "ünï"])
        if k < 0.22:
            return r.choice([True, False])
        if k < 0.30:
            return r.choice([0, 7, -3, 10 ** 15, 2 ** 31, -2 ** 31 - 1, 2 ** 63, 2 ** 64, -2 ** 63 - 1, 10 ** 30 + 7])   # raw JSON number (any width)
        if k < 0.36:
            return r.choice([0.5, 1e-3, 2.25])
        if k < 0.46:
            return {"$": r.choice([5, -1, 2 ** 40, 2 ** 63, 2 ** 70 + 1]), "type": r.choice(["xsd:int", "xsd:long"])}
        if k < 0.54:
            return {"$": str(r.choice([5, -1, 123456789012])), "type": r.choice(["xsd:int", "xsd:long"])}
        if k < 0.60:
            return {"$": r.choice([1.5, 0.1]), "type": "xsd:double"}
        if k < 0.66:
            return {"$": r.choice(["1.5", "2.0E3", "0.1"]), "type": "xsd:double"}
        if k < 0.72:
            return {"$": r.choice(["true", "false", "1", "0"]), "type": "xsd:boolean"}
        if k < 0.77:
            return {"$": self.time(), "type": "xsd:dateTime"}
        if k < 0.82:
            return {"$": "http://example.org/some/uri", "type": "xsd:anyURI"}
        if k < 0.88:
            return {"$": self.name(prefixes, default), "type": "prov:QUALIFIED_NAME"}
        if k < 0.93:
            return {"$": r.choice(["bonjour", "hello"]), "lang": r.choice(["fr", "en"])}
        if k < 0.97:
            return {"$": "abc", "type": r.choice(["xsd:string", prefixes[0] + ":custom", "xsd:gYear", "xsd:decimal"])}
        return {"$": "text", "type": "xsd:string"}

    def record(self, kind, prefixes, default):
        r = self.r
        obj = {}
        for i, f in enumerate(KIND_FORMALS[kind]):
            if kind not in ELEMENTS and i < 2 or r.random() < 0.5:
                if f in TIMES:
                    obj[f] = self.time()
                else:
                    v = self.name(prefixes, default)
                    obj[f] = [v] if r.random() < 0.15 else v       # single value wrapped in an array
        fam = {"agent": ["prov:Person", "prov:Organization", "prov:SoftwareAgent"],
               "entity": ["prov:Plan", "prov:Collection", "prov:EmptyCollection", "prov:Bundle"],
               "wasDerivedFrom": ["prov:Revision", "prov:Quotation", "prov:PrimarySource"]}.get(kind)
        if fam and r.random() < 0.15:
            # two PROV subtypes of the record's own base class (only one can name a PROV-XML element)
            obj["prov:type"] = [{"$": t, "type": "prov:QUALIFIED_NAME"} for t in r.sample(fam, 2)]
        if kind == "hadMember" and r.random() < 0.4:
            obj["prov:entity"] = [self.name(prefixes, default) for _ in range(r.randint(2, 3))]
        for _ in range(r.randint(0, 3)):
            an = r.choice(["prov:type", "prov:label", "prov:value", "prov:location", "prov:role", self.name(prefixes, default)])
            if an == "prov:type" and isinstance(obj.get("prov:type"), list) and len(obj["prov:type"]) == 2:
                continue
            if an == "prov:label":
                v = r.choice(["a label", {"$": "étiquette", "lang": "fr"}])
            else:
                v = self.value(prefixes, default)
            if r.random() < 0.2:
                v = [v, "second value %d" % r.randint(0, 99)] if r.random() < 0.6 else [v]
            obj[an] = v
        return obj

    def container(self, prefixes, default, allow_prefix_block):
        r = self.r
        c = {}
        if allow_prefix_block:
            pb = dict(allow_prefix_block)
            if pb:
                c["prefix"] = pb
        for _ in range(r.randint(1, 5)):
            kind = r.choice(list(KIND_FORMALS))
            m = c.setdefault(kind, {})
            if kind in ELEMENTS or r.random() < 0.4:
                ident = self.name(prefixes, default)
            else:
                ident = "_:n%d" % r.randint(1, 50)
            rec = self.record(kind, prefixes, default)
            if ident in m:
                cur = m[ident]
                m[ident] = (cur if isinstance(cur, list) else [cur]) + [rec]      # record array for a repeated identifier
            else:
                m[ident] = [rec] if r.random() < 0.1 else rec
            if kind in ELEMENTS and r.random() < 0.12:
                # the same element stated once more without any attribute ({}), before or after the described statement
                cur = m[ident]
                lst = cur if isinstance(cur, list) else [cur]
                m[ident] = ([{}] + lst) if r.random() < 0.5 else (lst + [{}])
        if r.random() < 0.2:
            # an identifier carrying an *array* of memberships, some listing several entities
            ident = self.name(prefixes, default) if r.random() < 0.5 else "_:mm%d" % r.randint(1, 9)
            arr = []
            for _ in range(r.randint(2, 3)):
                rec = {"prov:collection": self.name(prefixes, default)}
                ents = [self.name(prefixes, default) for _ in range(r.choice([1, 1, 2, 3]))]
                rec["prov:entity"] = ents if len(ents) > 1 or r.random() < 0.3 else ents[0]
                arr.append(rec)
            c.setdefault("hadMember", {})[ident] = arr
        return c

    def document(self):
        r = self.r
        doc_pfx = {"ex": "http://example.org/", "tr": "http://www.w3.org/TR/2011/"}
        if r.random() < 0.3:
            doc_pfx["other"] = "http://other.example/ns#"
        default = r.random() < 0.3
        if default:
            doc_pfx["default"] = "http://default.example/"
        d = self.container(list(k for k in doc_pfx if k != "default"), default, doc_pfx)
        nb = r.choice([0, 0, 1, 2])
        if nb:
            d["bundle"] = {}
            for i in range(nb):
                bp = {}
                names = [k for k in doc_pfx if k != "default"]
                if r.random() < 0.5:
                    bp["bp%d" % i] = "http://bundle%d.example/" % i
                    names = names + ["bp%d" % i]
                if r.random() < 0.3:
                    # the bundle re-binds a prefix of the document to another namespace (its names then live there)
                    bp["tr"] = "http://bundle%d.example/tr#" % i
                bdefault = default
                if r.random() < 0.2:
                    bp["default"] = "http://default.example/"      # same default namespace re-declared in the bundle
                    bdefault = True
                d["bundle"]["ex:bundle%d" % i] = self.container(names, bdefault, bp)
        return d


def corpus_files():
    return sorted(glob.glob(os.path.join(CORPUS, "*.json")))


MUTATIONS = ["none", "value-kind", "wrap-array", "unwrap-array", "reorder-keys", "rename-prefix", "move-prefix-to-bundle"]


def mutate(g, tree, how):
    """single-point mutation of a parsed PROV-JSON document (plain dicts); returns (tree, applied?)"""
    r = g.rng
    t = copy.deepcopy(tree)
    recs = []           # (container, kind, id, record-dict)
    def collect(c):
        for kind, m in c.items():
            if kind in ("prefix", "bundle") or not isinstance(m, dict):
                continue
            for ident, v in m.items():
                for rec in (v if isinstance(v, list) else [v]):
                    if isinstance(rec, dict):
                        recs.append((c, kind, ident, rec))
    collect(t)
    for b in (t.get("bundle") or {}).values():
        if isinstance(b, dict):
            collect(b)
    if how == "none":
        return t, True
    if how == "reorder-keys":
        def rev(x):
            if isinstance(x, dict):
                return {k: rev(x[k]) for k in reversed(list(x))}
            if isinstance(x, list):
                return [rev(v) for v in x]
            return x
        return rev(t), True
    if how == "rename-prefix":
        pb = t.get("prefix") or {}
        cands = [p for p in pb if p != "default"]
        if not cands:
            return t, False
        old = r.choice(cands)
        new = "renamed" + old
        def ren(x):
            if isinstance(x, dict):
                return {(new + k[len(old):] if isinstance(k, str) and k.startswith(old + ":") else (new if k == old and x is pb_ref[0] else k)): ren(v)
                        for k, v in x.items()}
            if isinstance(x, list):
                return [ren(v) for v in x]
            if isinstance(x, str) and x.startswith(old + ":"):
                return new + x[len(old):]
            return x
        pb_ref = [t.get("prefix")]
        # bundles that re-declare the prefix keep their own meaning: skip such documents
        for b in (t.get("bundle") or {}).values():
            if isinstance(b, dict) and old in (b.get("prefix") or {}):
                return t, False
        out = ren(t)
        return out, True
    if how == "move-prefix-to-bundle":
        bs = t.get("bundle") or {}
        pb = t.get("prefix") or {}
        if len(bs) != 1 or not pb:
            return t, False
        bname, b = next(iter(bs.items()))
        text_doc = json.dumps({k: v for k, v in t.items() if k not in ("bundle", "prefix")})
        for p in [p for p in pb if p != "default"]:
            if ('"%s:' % p) not in text_doc and not bname.startswith(p + ":") and p not in (b.get("prefix") or {}):
                b.setdefault("prefix", {})[p] = pb.pop(p)
                if not pb:
                    t.pop("prefix")
                return t, True
        return t, False
    if not recs:
        return t, False
    if how in ("wrap-array", "unwrap-array", "value-kind"):
        r.shuffle(recs)
        for (_c, kind, ident, rec) in recs:
            for k in list(rec):
                v = rec[k]
                if how == "wrap-array" and not isinstance(v, list):
                    rec[k] = [v]
                    return t, True
                if how == "unwrap-array" and isinstance(v, list) and len(v) == 1:
                    rec[k] = v[0]
                    return t, True
                if how == "value-kind" and isinstance(v, dict) and "$" in v and v.get("type") in ("xsd:int", "xsd:long", "xsd:double", "xsd:boolean", "xsd:string"):
                    if isinstance(v["$"], str):
                        try:
                            v["$"] = json.loads(v["$"]) if v["type"] != "xsd:string" else v["$"]
                        except ValueError:
                            continue
                    else:
                        v["$"] = json.dumps(v["$"])
                    return t, True
        return t, False
    return t, False
